"""Lints written in anticipation of the fourth seeding round: 2-D row arithmetic and ragged-offset arithmetic.

ROW-LEN       every GET_2D_ROW(A, L, r) on one array uses one row length L, and L is a factor of A's allocation
OFFSET-DIFF   a row length read from a ragged column is offset[x + 1] - offset[x] on ONE offset array
"""
from __future__ import annotations

import re

from sa.cfront import LIB_TUS
from sa.expr import macro_args, strip, walk, estr, callee

_ROW = re.compile(r"\bGET_2D_ROW\s*\(")


def _norm(t):
    return re.sub(r"\s+", "", t)


def row_len(ctx, P, scope, rule="ROW-LEN", tus=None):
    ctx.rule(rule, "two-dimensional arrays are addressed with one row length: within a function every GET_2D_ROW(A, L, row) on the "
                   "same array A uses the same L, and where A is allocated in that function (`A = tsk_calloc(R * L, …)` / "
                   "`tsk_malloc(R * L * sizeof …)`) L is one of the factors of the allocation count.  A row taken with the length of "
                   "a sibling array (state_dim for result_dim, num_weights for num_weights + 1) addresses another row's cells")
    n = 0
    for key in (tus or LIB_TUS):
        tu = P.tus[key]
        for fn in tu.funcs.values():
            if fn.body is None or not scope(key, fn.name):
                continue
            src = tu.src(fn.body)
            if "GET_2D_ROW" not in src:
                continue
            text = tu.text_of(fn.body.file)
            uses = {}
            for m in _ROW.finditer(src):
                a = macro_args(src[m.start():])
                if len(a) != 3:
                    continue
                uses.setdefault(_norm(a[0]), []).append((_norm(a[1]), m.start()))
            allocs = {}
            for x in walk(fn.body):
                if x.k in ("BinaryOperator", "VarDecl") and (x.k == "VarDecl" or x.op == "="):
                    lhs = x.name if x.k == "VarDecl" else estr(x.kids[0])
                    r = strip(x.kids[-1]) if x.kids else None
                    if r is None or r.k != "CallExpr" or callee(r) not in ("tsk_malloc", "tsk_calloc", "malloc", "calloc"):
                        continue
                    allocs[_norm(lhs or "")] = _norm(" ".join(tu.src(r).split()))
            for arr, us in sorted(uses.items()):
                lens = sorted({l for l, _ in us})
                n += 1
                line = text[:fn.body.b + us[0][1]].count("\n") + 1
                where = "%s:%d" % (fn.body.file, line)
                if len(lens) > 1:
                    ctx.ob(rule, "%s|%s" % (fn.name, arr), False, where, "`%s` is addressed with row lengths %s in one function" % (arr, lens))
                    continue
                ok, why = True, "row length %s" % lens[0]
                if arr in allocs:
                    cnt = allocs[arr]
                    def terms(t):
                        return sorted(x for x in re.split(r"\+", t.strip("()")) if x)
                    inner = cnt[cnt.find("(") + 1:]
                    facs = [f_ for f_ in re.split(r"\*|,", inner) if f_ and "sizeof" not in f_]
                    ok = any(terms(f_.strip("()")) == terms(lens[0]) for f_ in facs) or lens[0].strip("()") in cnt
                    why = "row length %s is a factor of the allocation `%s`" % (lens[0], cnt[:70]) if ok else \
                        "row length %s does not occur in the allocation `%s`" % (lens[0], cnt[:70])
                ctx.ob(rule, "%s|%s" % (fn.name, arr), ok, where, why)
    return n


def offset_diff(ctx, P, scope, rule="OFFSET-DIFF", tus=None):
    ctx.rule(rule, "the length of row x of a ragged column is `offset[x + 1] - offset[x]`: every subtraction of two elements of "
                   "*_offset arrays subtracts elements of the SAME array at indexes x + 1 and x")
    n = 0
    for key in (tus or LIB_TUS):
        tu = P.tus[key]
        for fn in tu.funcs.values():
            if fn.body is None or not scope(key, fn.name):
                continue
            k = 0
            for x in walk(fn.body):
                if x.k == "BinaryOperator" and x.op == "-":
                    a, b = strip(x.kids[0]), strip(x.kids[1])
                    if a is None or b is None or a.k != "ArraySubscriptExpr" or b.k != "ArraySubscriptExpr":
                        continue
                    ba, bb = estr(a.kids[0]), estr(b.kids[0])
                    if "offset" not in ba and "offset" not in bb:
                        continue
                    ia, ib = estr(a.kids[1]), estr(b.kids[1])
                    n += 1
                    ok = ba == bb and ia in ("(%s + 1)" % ib, "%s + 1" % ib, "(1 + %s)" % ib)
                    ctx.ob(rule, "%s@%d" % (fn.name, k), ok, tu.loc(x), "`%s`" % estr(x))
                    k += 1
    return n


def null_fill(ctx, P, scope, rule="NULL-FILL", tus=None):
    """An id array whose elements are tested against TSK_NULL starts out as TSK_NULL (0xff bytes), not as zeros."""
    from sa.expr import const_int
    ctx.rule(rule, "an array whose elements are compared with TSK_NULL is initialised with the 0xff / TSK_NULL byte pattern wherever "
                   "it is bulk-initialised: it is never only zero-filled (tsk_calloc, memset 0), because 0 is a valid id and an "
                   "untouched entry would read as 'row 0' instead of 'none'.  Struct members are matched across the translation "
                   "unit, locals within their function")
    n = 0
    for key in (tus or LIB_TUS):
        tu = P.tus[key]
        fills, nulls, where = {}, {}, {}
        for fn in tu.funcs.values():
            if fn.body is None:
                continue

            def name_of(e):
                e = strip(e)
                if e is None:
                    return None
                if e.k == "MemberExpr":
                    return "." + (e.name or "")
                if e.k == "DeclRefExpr":
                    return fn.name + ":" + (e.ref or "")
                return None
            for x in walk(fn.body):
                if x.k == "BinaryOperator" and x.op == "=":
                    r = strip(x.kids[1])
                    if r is not None and r.k == "CallExpr" and callee(r) in ("tsk_calloc", "calloc"):
                        nm = name_of(x.kids[0])
                        if nm:
                            fills.setdefault(nm, set()).add("zero")
                            where.setdefault(nm, x)
                if x.k == "CallExpr" and callee(x) in ("tsk_memset", "memset") and len(x.kids) >= 4:
                    nm = name_of(x.kids[1])
                    v, t = const_int(x.kids[2]), estr(x.kids[2])
                    if nm:
                        kind = "zero" if v == 0 else "ff" if (v in (255, -1) or "0xff" in t.lower() or "TSK_NULL" in t) else "other"
                        fills.setdefault(nm, set()).add(kind)
                        where.setdefault(nm, x)
                if x.k == "BinaryOperator" and x.op in ("==", "!="):
                    for a, b in ((x.kids[0], x.kids[1]), (x.kids[1], x.kids[0])):
                        if estr(b) in ("TSK_NULL", "-1"):
                            aa = strip(a)
                            if aa is not None and aa.k == "ArraySubscriptExpr":
                                nm = name_of(aa.kids[0])
                                if nm:
                                    nulls.setdefault(nm, (fn, x))
        for nm, (fn, x) in sorted(nulls.items()):
            if nm not in fills or not scope(key, fn.name):
                continue
            n += 1
            kinds = fills[nm]
            ok = not ("zero" in kinds and "ff" not in kinds)
            ctx.ob(rule, "%s|%s" % (key, nm), ok, tu.loc(where[nm]),
                   "%s is initialised with %s and tested against TSK_NULL" % (nm.lstrip("."), sorted(kinds)) if ok else
                   "%s is only zero-filled but its elements are compared with TSK_NULL (%s): an untouched entry reads as id 0"
                   % (nm.lstrip("."), tu.loc(x)))
    return n
