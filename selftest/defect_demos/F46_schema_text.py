import sys, os, pickle; sys.path.insert(0, os.getcwd())
import tskit
assert os.getcwd() in tskit.__file__
tc = tskit.TableCollection(1.0)
d = tc.asdict(); d["nodes"]["metadata_schema"] = '{"codec":"json" }'
d["reference_sequence"] = {"data": "A", "metadata_schema": '{"codec":"json" }'}
t = tskit.TableCollection.fromdict(d)
bad = 0
for name, got in (("table copy", t.nodes.copy() == t.nodes), ("table pickle", pickle.loads(pickle.dumps(t.nodes)) == t.nodes),
                  ("collection copy", t.copy() == t), ("table asdict schema", t.nodes.asdict()["metadata_schema"] == t.nodes.ll_table.metadata_schema),
                  ("refseq asdict schema", t.reference_sequence.asdict()["metadata_schema"] == t._ll_tables.reference_sequence.metadata_schema)):
    print(name, got); bad += not got
t2 = t.copy(); t2.nodes.flags = t2.nodes.flags
print("column assignment keeps schema bytes", t2.nodes.ll_table.metadata_schema == t.nodes.ll_table.metadata_schema); bad += t2.nodes.ll_table.metadata_schema != t.nodes.ll_table.metadata_schema
sys.exit(1 if bad else 0)
