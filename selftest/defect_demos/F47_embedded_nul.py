import sys, os; sys.path.insert(0, os.getcwd())
import tskit
assert os.getcwd() in tskit.__file__
t = tskit.Tree.generate_balanced(2).tree_sequence.dump_tables()
t.sites.add_row(0.5, "A"); t.mutations.add_row(0, 0, "T"); ts = t.tree_sequence()
try:
    v = next(ts.variants(alleles=("A\0zzz", "T")))
    print("ACCEPTED", v.alleles, v.genotypes); sys.exit(1)
except (ValueError, tskit.LibraryError) as e:
    print("rejected:", e)
v = next(ts.variants(alleles=("A", "T"))); assert list(v.genotypes) == [1, 0], v.genotypes
