import sys, os; sys.path.insert(0, os.getcwd())
import tskit, numpy as np
assert os.getcwd() in tskit.__file__
bad = 0
t = tskit.IndividualTable()
t.add_row(flags=1, location=[5.0], parents=[-1], metadata=b"a")
before = t.copy()
try:
    t.append_columns(flags=[0], location=[1., 2.], location_offset=[0, 2], parents=[0], parents_offset=[1, 1])
    print("no error"); bad += 1
except (tskit.LibraryError, ValueError) as e:
    print("individuals raised", e, "| unchanged:", t == before, list(t.location)); bad += not (t == before)
t.add_row(flags=2)
print("new row location", list(t[1].location)); bad += len(t[1].location) != 0
p = tskit.ProvenanceTable(); p.add_row("r", timestamp="t"); pb = p.copy()
try:
    p.append_columns(timestamp=np.frombuffer(b"GG", dtype=np.int8), timestamp_offset=np.array([0, 2], dtype=np.uint64), record=np.array([1], dtype=np.int8), record_offset=np.array([1, 1], dtype=np.uint64))
    print("no error"); bad += 1
except (tskit.LibraryError, ValueError) as e:
    print("provenance raised", e, "| unchanged:", p == pb); bad += not (p == pb)
p.add_row("", timestamp="")
print("new provenance timestamp", repr(p[1].timestamp)); bad += p[1].timestamp != ""
sys.exit(1 if bad else 0)
