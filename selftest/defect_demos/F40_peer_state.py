import sys, os, subprocess
tests = {
 "union": "a=_tskit.TableCollection(1.0); b=_tskit.TableCollection.__new__(_tskit.TableCollection); a.union(b, np.array([],dtype=np.int32))",
 "load_tables": "ts=_tskit.TreeSequence(); b=_tskit.TableCollection.__new__(_tskit.TableCollection); ts.load_tables(b)",
 "dump_tables": "t=_tskit.TableCollection(1.0); t.build_index(); ts=_tskit.TreeSequence(); ts.load_tables(t); b=_tskit.TableCollection.__new__(_tskit.TableCollection); ts.dump_tables(b)",
 "ts_kc": "t=_tskit.TableCollection(1.0); t.build_index(); ts=_tskit.TreeSequence(); ts.load_tables(t); o=_tskit.TreeSequence.__new__(_tskit.TreeSequence); ts.get_kc_distance(o, 0.0)",
 "tree_kc": "t=_tskit.TableCollection(1.0); t.build_index(); ts=_tskit.TreeSequence(); ts.load_tables(t); tr=_tskit.Tree(ts); o=_tskit.Tree.__new__(_tskit.Tree); tr.get_kc_distance(o, 0.0)",
 "variant": "o=_tskit.TreeSequence.__new__(_tskit.TreeSequence); _tskit.Variant(o)",
 "ldcalc": "o=_tskit.TreeSequence.__new__(_tskit.TreeSequence); _tskit.LdCalculator(o)",
 "cmatrix": "o=_tskit.TreeSequence.__new__(_tskit.TreeSequence); _tskit.CompressedMatrix(o)",
 "vmatrix": "o=_tskit.TreeSequence.__new__(_tskit.TreeSequence); _tskit.ViterbiMatrix(o)",
 "lshmm": "o=_tskit.TreeSequence.__new__(_tskit.TreeSequence); _tskit.LsHmm(o, np.zeros(1), np.zeros(1))",
}
bad = 0
for k, code in tests.items():
    r = subprocess.run([sys.executable, "-c", "import sys,os; sys.path.insert(0,os.getcwd()); import _tskit, numpy as np\ntry:\n    %s\nexcept Exception as e:\n    print(type(e).__name__, e)" % code.replace("; ", "\n    ")], capture_output=True, text=True)
    print(k, r.returncode, (r.stdout + r.stderr).strip()[-100:])
    bad += r.returncode != 0
sys.exit(1 if bad else 0)
