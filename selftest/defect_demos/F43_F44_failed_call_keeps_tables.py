import sys, os; sys.path.insert(0, os.getcwd())
import tskit, numpy as np
assert os.getcwd() in tskit.__file__
def mk(mig=False):
    t = tskit.TableCollection(10)
    t.populations.add_row(); t.populations.add_row()
    for _ in range(3): t.nodes.add_row(flags=1, time=0, population=0)
    t.nodes.add_row(time=1, population=0); t.nodes.add_row(time=2, population=0)
    t.edges.add_row(0,10,3,0); t.edges.add_row(0,10,3,1); t.edges.add_row(0,10,4,2); t.edges.add_row(0,10,4,3)
    t.sites.add_row(1, "A"); t.mutations.add_row(0, 0, "T")
    if mig: t.migrations.add_row(0, 10, 0, 0, 1, 0.5)
    t.sort()
    return t
bad = 0
for name, mig, call in (("subset-oob", False, lambda t: t.subset([0, 50])), ("subset-mig", True, lambda t: t.subset([0, 1])),
                        ("simplify-mig", True, lambda t: t.simplify([0, 1]))):
    t = mk(mig); before = t.copy()
    try:
        call(t); print(name, "no error"); bad += 1
    except tskit.LibraryError as e:
        same = t.equals(before, ignore_provenance=True)
        print(name, "raised", e, "| tables unchanged:", same)
        bad += not same
sys.exit(1 if bad else 0)
