import sys, os; sys.path.insert(0, os.getcwd())
import tskit, numpy as np
assert os.getcwd() in tskit.__file__
bad = 0
u64 = lambda x: np.array(x, dtype=np.uint64); i8 = lambda b: np.frombuffer(b, dtype=np.int8)
s = tskit.SiteTable(); s.add_row(0.5, "A", metadata=b"m"); sb = s.copy()
for kw in (dict(ancestral_state=i8(b"GG"), ancestral_state_offset=u64([0, 2]), metadata=i8(b"x"), metadata_offset=u64([1, 1])),
           dict(ancestral_state=i8(b"G"), ancestral_state_offset=u64([1, 1]), metadata=i8(b"xx"), metadata_offset=u64([0, 2]))):
    s = sb.copy()
    try:
        s.append_columns(position=[1.0], **kw); print("no error"); bad += 1
    except (tskit.LibraryError, ValueError) as e:
        print("sites raised", e, "| unchanged:", s == sb); bad += not (s == sb)
    s.add_row(2.0, "")
    print("   new site:", repr(s[1].ancestral_state), repr(s[1].metadata)); bad += (s[1].ancestral_state != "" or s[1].metadata != b"")
m = tskit.MutationTable(); m.add_row(0, 0, "T", metadata=b"m"); mb = m.copy()
for kw in (dict(derived_state=i8(b"GG"), derived_state_offset=u64([0, 2]), metadata=i8(b"x"), metadata_offset=u64([1, 1])),
           dict(derived_state=i8(b"G"), derived_state_offset=u64([1, 1]), metadata=i8(b"xx"), metadata_offset=u64([0, 2]))):
    m = mb.copy()
    try:
        m.append_columns(site=[0], node=[0], **kw); print("no error"); bad += 1
    except (tskit.LibraryError, ValueError) as e:
        print("mutations raised", e, "| unchanged:", m == mb); bad += not (m == mb)
    m.add_row(0, 0, "")
    print("   new mutation:", repr(m[1].derived_state), repr(m[1].metadata)); bad += (m[1].derived_state != "" or m[1].metadata != b"")
sys.exit(1 if bad else 0)
