import sys, os; sys.path.insert(0, os.getcwd())
import tskit, numpy as np
assert os.getcwd() in tskit.__file__
ts = tskit.Tree.generate_balanced(3).tree_sequence
t = ts.dump_tables(); t.sites.add_row(0.5, "A"); t.mutations.add_row(0, 0, "T"); ts = t.tree_sequence()
bad = 0
for iv in ([[np.nan, np.nan]], [[np.nan, 0.5]], [[0.2, np.nan]]):
    for f in (ts.keep_intervals, ts.delete_intervals):
        try:
            r = f(iv)
            print("ACCEPTED", f.__name__, iv, "-> edges", r.num_edges, "sites", r.num_sites); bad += 1
        except ValueError as e:
            print("rejected", f.__name__, iv, e)
        except tskit.LibraryError as e:
            print("LIBERR", f.__name__, iv, e); bad += 1
sys.exit(1 if bad else 0)
