#!/venv/bin/python
"""Must-stay-silent self-test: apply each behaviour-preserving variant under selftest/benign/ to a scratch worktree of
/repo HEAD and run every registered check against it; any VIOLATION or ANALYSIS-ERROR is a false alarm.
Usage: run_benign.py [--build] [name ...]     (--build also compiles the extension to prove the variant still builds)"""
import json, os, subprocess, sys

ROOT = os.path.dirname(os.path.dirname(os.path.abspath(__file__)))
WT = os.environ.get("BENIGN_WT", "/tmp/wt/benignrun")


def sh(*a, **kw):
    return subprocess.run(a, capture_output=True, text=True, **kw)


def main():
    names = [a for a in sys.argv[1:] if not a.startswith("--")]
    build = "--build" in sys.argv
    head = sh("git", "-C", "/repo", "rev-parse", "HEAD").stdout.strip()
    if not os.path.isdir(WT):
        sh("git", "-C", "/repo", "worktree", "add", "-q", "--detach", WT, head)
    sh("git", "-C", WT, "checkout", "-q", "--", ".")
    sh("git", "-C", WT, "checkout", "-q", "--detach", head)
    props = [c["property_id"] for c in json.load(open(os.path.join(ROOT, "MANIFEST.json")))["checks"]]
    bdir = os.path.join(ROOT, "selftest", "benign")
    variants = sorted(f[:-5] for f in os.listdir(bdir) if f.endswith(".diff"))
    if names:
        variants = [v for v in variants if v in names]
    env = dict(os.environ, VERIF_REPO=WT, VERIF_CACHE=os.environ.get("BENIGN_CACHE", "/tmp/vcache_benign"), VERIF_EVIDENCE_DIR=os.environ.get("BENIGN_EVIDENCE", "/tmp/benign_evidence"))
    bad = 0
    for v in variants:
        r = sh("git", "-C", WT, "apply", os.path.join(bdir, v + ".diff"))
        if r.returncode:
            print(v, "PATCH-FAILS", r.stderr.strip()[:200]); bad += 1; continue
        if build:
            b = sh("/venv/bin/python", "setup.py", "build_ext", "--inplace", cwd=os.path.join(WT, "python"))
            imp = sh("/venv/bin/python", "-c", "import sys,os;sys.path.insert(0,os.getcwd());import tskit,_tskit;print(_tskit.__file__)", cwd=os.path.join(WT, "python"))
            print(v, "build:", "ok" if b.returncode == 0 and WT in imp.stdout else "FAILED")
        alarms = []
        for p in props:
            rr = subprocess.run([os.path.join(ROOT, "check"), p], capture_output=True, text=True, env=env)
            if rr.returncode != 0:
                alarms.append((p, [l for l in rr.stdout.splitlines() if l.startswith("  violated:") or l.startswith("ANALYSIS-ERROR")][:3]))
        sh("git", "-C", WT, "checkout", "-q", "--", ".")
        sh("git", "-C", WT, "clean", "-fdq", "python/build")
        print("%-22s %s" % (v, "silent on all %d checks" % len(props) if not alarms else "FALSE ALARMS: %s" % alarms))
        bad += len(alarms)
    return 1 if bad else 0


if __name__ == "__main__":
    sys.exit(main())
