#!/venv/bin/python
"""par.py seeded|benign [-j N] [--all-props] [ids ...]: run_seeded.py / run_benign.py over N scratch worktrees at once.

Each worker gets its own worktree (/tmp/wt/par-<kind>-<k>), digest cache and evidence directory; the seeded workers'
results are merged into seeded/RESULTS.json at the end (partial runs update, full runs replace).  All worktrees are
removed afterwards."""
import json, os, subprocess, sys

ROOT = os.path.dirname(os.path.dirname(os.path.abspath(__file__)))


def main():
    kind = sys.argv[1]
    rest = sys.argv[2:]
    n = 8
    if "-j" in rest:
        i = rest.index("-j"); n = int(rest[i + 1]); del rest[i:i + 2]
    flags = [a for a in rest if a.startswith("--")]
    ids = [a for a in rest if not a.startswith("--")]
    if kind == "seeded":
        allids = sorted(d for d in os.listdir(os.path.join(ROOT, "seeded")) if os.path.isdir(os.path.join(ROOT, "seeded", d)))
    else:
        allids = sorted(f[:-5] for f in os.listdir(os.path.join(ROOT, "selftest", "benign")) if f.endswith(".diff"))
    full = not ids
    ids = [i for i in allids if i in ids] if ids else allids
    n = max(1, min(n, len(ids)))
    chunks = [ids[k::n] for k in range(n)]
    procs = []
    for k, ch in enumerate(chunks):
        wt = "/tmp/wt/par-%s-%d" % (kind, k)
        if kind == "seeded":
            env = dict(os.environ, SEED_WT=wt, SEED_CACHE="/tmp/vcache_par_%s_%d" % (kind, k), SEED_EVIDENCE="/tmp/par_ev_%s_%d" % (kind, k),
                       SEED_RESULTS="/tmp/par_results_%d.json" % k)
            if os.path.exists(env["SEED_RESULTS"]):
                os.unlink(env["SEED_RESULTS"])
            cmd = [os.path.join(ROOT, "selftest", "run_seeded.py")] + flags + ch
        else:
            env = dict(os.environ, BENIGN_WT=wt, BENIGN_CACHE="/tmp/vcache_par_%s_%d" % (kind, k), BENIGN_EVIDENCE="/tmp/par_ev_%s_%d" % (kind, k))
            cmd = [os.path.join(ROOT, "selftest", "run_benign.py")] + flags + ch
        procs.append((k, wt, env, subprocess.Popen(cmd, env=env, stdout=subprocess.PIPE, stderr=subprocess.STDOUT, text=True)))
    rc = 0
    merged = {}
    for k, wt, env, p in procs:
        out = p.communicate()[0]
        sys.stdout.write(out)
        rc = rc or p.returncode
        if kind == "seeded" and os.path.exists(env["SEED_RESULTS"]):
            merged.update(json.load(open(env["SEED_RESULTS"])))
            os.unlink(env["SEED_RESULTS"])
        subprocess.run(["git", "-C", "/repo", "worktree", "remove", "--force", wt], capture_output=True)
        subprocess.run(["rm", "-rf", env.get("SEED_CACHE") or env.get("BENIGN_CACHE"), env.get("SEED_EVIDENCE") or env.get("BENIGN_EVIDENCE")])
    if kind == "seeded" and "--all-props" not in flags:
        rp = os.path.join(ROOT, "seeded", "RESULTS.json")
        old = {} if full or not os.path.exists(rp) else json.load(open(rp))
        old.update(merged)
        json.dump(old, open(rp, "w"), indent=1, sort_keys=True)
        missed = sorted(s for s, r in merged.items() if r.get("property") not in r.get("caught_by", []))
        print("PAR: %d seeds run, %d not reported by their own property's check: %s" % (len(merged), len(missed), " ".join(missed)))
    return rc


if __name__ == "__main__":
    sys.exit(main())
