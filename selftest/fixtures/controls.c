/* Positive controls for the analysis engines: every function below contains exactly the construct
 * that the named engine must report.  Parsed on every thorough run; an engine that stays silent here
 * is broken (ANALYSIS-ERROR), so a rule whose expected count on tskit is zero can never pass vacuously. */
#include <stddef.h>
#include <stdio.h>
typedef int tsk_id_t;
typedef unsigned long tsk_size_t;
#define TSK_ERR_NODE_OUT_OF_BOUNDS -202
#define TSK_ERR_BUFFER_OVERFLOW -12
#define tsk_trace_error(err) (err)
typedef struct { tsk_size_t num_rows; double *time; } tsk_node_table_t;
typedef struct { tsk_node_table_t nodes; } tsk_table_collection_t;

/* guards: accepted interval admits u == num_rows */
int
control_guard_off_by_one(tsk_table_collection_t *self, tsk_id_t u, double *out)
{
    int ret = 0;
    if (u < 0 || u > (tsk_id_t) self->nodes.num_rows) {
        ret = tsk_trace_error(TSK_ERR_NODE_OUT_OF_BOUNDS);
        goto out;
    }
    *out = self->nodes.time[u];
out:
    return ret;
}

/* guards: exact guard (negative control) */
int
control_guard_exact(tsk_table_collection_t *self, tsk_id_t u, double *out)
{
    int ret = 0;
    if (!(0 <= u && u < (tsk_id_t) self->nodes.num_rows)) {
        ret = tsk_trace_error(TSK_ERR_NODE_OUT_OF_BOUNDS);
        goto out;
    }
    *out = self->nodes.time[u];
out:
    return ret;
}

static int
control_can_fail(int x)
{
    int ret = 0;
    if (x > 3) {
        ret = tsk_trace_error(TSK_ERR_NODE_OUT_OF_BOUNDS);
    }
    return ret;
}

/* errprop: first result overwritten before it is tested */
int
control_dropped_error(int a, int b)
{
    int ret = 0;
    ret = control_can_fail(a);
    ret = control_can_fail(b);
    if (ret != 0) {
        goto out;
    }
out:
    return ret;
}

/* errprop: both results tested (negative control) */
int
control_checked_error(int a, int b)
{
    int ret = 0;
    ret = control_can_fail(a);
    if (ret != 0) {
        goto out;
    }
    ret = control_can_fail(b);
out:
    return ret;
}

/* bounded writes: second store happens after s++ with no new bound */
int
control_unbounded_store(char *buffer, size_t buffer_size)
{
    int ret = 0;
    size_t s = 0;
    if (s >= buffer_size) {
        ret = tsk_trace_error(TSK_ERR_BUFFER_OVERFLOW);
        goto out;
    }
    buffer[s] = 'a';
    s++;
    buffer[s] = 'b';
out:
    return ret;
}

/* range_guarded: only the upper bound is tested before the index use */
double
control_half_guarded(tsk_table_collection_t *self, long v)
{
    if (v >= (long) self->nodes.num_rows) {
        return -1;
    }
    return self->nodes.time[(tsk_id_t) v];
}

/* guards: the count on the left-hand side (negative control for orient()) */
int
control_guard_reversed(tsk_table_collection_t *self, tsk_id_t u, double *out)
{
    int ret = 0;
    if ((tsk_id_t) self->nodes.num_rows <= u || 0 > u) {
        ret = tsk_trace_error(TSK_ERR_NODE_OUT_OF_BOUNDS);
        goto out;
    }
    *out = self->nodes.time[u];
out:
    return ret;
}

/* errprop: result assigned and tested in one condition (negative control) */
int
control_assign_in_condition(int x)
{
    int ret = 0;
    if ((ret = control_can_fail(x)) != 0) {
        goto out;
    }
    ret = control_can_fail(x + 1);
out:
    return ret;
}

#define TSK_NULL (-1)
#define TSK_MAX(a, b) ((a) > (b) ? (a) : (b))
#define TSK_MIN(a, b) ((a) < (b) ? (a) : (b))
typedef struct { double left; double right; } control_seg_t;

/* map-two-pass: the id map is consulted at a stored reference while the same loop is still filling it */
void
control_map_single_pass(tsk_id_t *id_map, const tsk_id_t *parent, tsk_id_t *out_parent, tsk_size_t n)
{
    tsk_size_t j;
    tsk_id_t next = 0;
    for (j = 0; j < n; j++) {
        id_map[j] = next++;
        out_parent[j] = parent[j] == TSK_NULL ? TSK_NULL : id_map[parent[j]];
    }
}

/* map-two-pass: filled first, consulted afterwards (negative control) */
void
control_map_two_pass(tsk_id_t *id_map, const tsk_id_t *parent, tsk_id_t *out_parent, tsk_size_t n)
{
    tsk_size_t j;
    tsk_id_t next = 0;
    for (j = 0; j < n; j++) {
        id_map[j] = next++;
    }
    for (j = 0; j < n; j++) {
        out_parent[j] = parent[j] == TSK_NULL ? TSK_NULL : id_map[parent[j]];
    }
}

/* minmax-kind: the left end of an intersection taken as a minimum; the right end correct */
void
control_intersection(const control_seg_t *a, const control_seg_t *b, control_seg_t *out)
{
    out->left = TSK_MIN(a->left, b->left);
    out->right = TSK_MIN(a->right, b->right);
}

/* validate-all: a NULL entry ends the validation of the list (bad) / is skipped (good) */
int
control_validate_break(const tsk_id_t *parents, tsk_size_t n, tsk_size_t num_rows)
{
    int ret = 0;
    tsk_size_t k;
    for (k = 0; k < n; k++) {
        if (parents[k] == TSK_NULL) {
            break;
        }
        if (parents[k] < 0 || parents[k] >= (tsk_id_t) num_rows) {
            ret = tsk_trace_error(-1);
            goto out;
        }
    }
out:
    return ret;
}

int
control_validate_all(const tsk_id_t *parents, tsk_size_t n, tsk_size_t num_rows)
{
    int ret = 0;
    tsk_size_t k;
    for (k = 0; k < n; k++) {
        if (parents[k] != TSK_NULL) {
            if (parents[k] < 0 || parents[k] >= (tsk_id_t) num_rows) {
                ret = tsk_trace_error(-1);
                goto out;
            }
        }
    }
out:
    return ret;
}

/* reference discipline of the glue (rules/lib_ref.py): minimal stand-ins for the CPython API */
typedef struct _object PyObject;
extern PyObject _Py_NoneStruct;
#define Py_None (&_Py_NoneStruct)
PyObject *PyList_New(long n);
PyObject *PyList_GetItem(PyObject *list, long j);
PyObject *Py_BuildValue(const char *fmt, ...);
void Py_DECREF(PyObject *o);
void Py_XDECREF(PyObject *o);
void Py_INCREF(PyObject *o);

PyObject *
control_ref_leak(long n)
{
    PyObject *ret = NULL;
    PyObject *list = NULL;

    list = PyList_New(n);
    if (list == NULL) {
        goto out;
    }
    ret = Py_BuildValue("i", 1);
out:
    return ret;
}

PyObject *
control_ref_released(long n)
{
    PyObject *ret = NULL;
    PyObject *list = NULL;

    list = PyList_New(n);
    if (list == NULL) {
        goto out;
    }
    ret = Py_BuildValue("i", 1);
out:
    Py_XDECREF(list);
    return ret;
}

PyObject *
control_ref_singleton(int flag)
{
    PyObject *ret = NULL;

    if (flag) {
        ret = Py_None;
    }
    return ret;
}

PyObject *
control_ref_singleton_owned(int flag)
{
    PyObject *ret = NULL;

    if (flag) {
        ret = Py_None;
        Py_INCREF(ret);
    }
    return ret;
}

int
control_ref_borrowed_released(PyObject *list)
{
    PyObject *item = NULL;

    item = PyList_GetItem(list, 0);
    Py_XDECREF(item);
    return 0;
}

int
control_ref_borrowed_kept(PyObject *list)
{
    PyObject *item = NULL;

    item = PyList_GetItem(list, 0);
    return item != NULL;
}
