/* Positive controls for the analysis engines: every function below contains exactly the construct
 * that the named engine must report.  Parsed on every thorough run; an engine that stays silent here
 * is broken (ANALYSIS-ERROR), so a rule whose expected count on tskit is zero can never pass vacuously. */
#include <stddef.h>
#include <stdio.h>
typedef int tsk_id_t;
typedef unsigned long tsk_size_t;
#define TSK_ERR_NODE_OUT_OF_BOUNDS -202
#define TSK_ERR_BUFFER_OVERFLOW -12
#define tsk_trace_error(err) (err)
typedef struct { tsk_size_t num_rows; double *time; } tsk_node_table_t;
typedef struct { tsk_node_table_t nodes; } tsk_table_collection_t;

/* guards: accepted interval admits u == num_rows */
int
control_guard_off_by_one(tsk_table_collection_t *self, tsk_id_t u, double *out)
{
    int ret = 0;
    if (u < 0 || u > (tsk_id_t) self->nodes.num_rows) {
        ret = tsk_trace_error(TSK_ERR_NODE_OUT_OF_BOUNDS);
        goto out;
    }
    *out = self->nodes.time[u];
out:
    return ret;
}

/* guards: exact guard (negative control) */
int
control_guard_exact(tsk_table_collection_t *self, tsk_id_t u, double *out)
{
    int ret = 0;
    if (!(0 <= u && u < (tsk_id_t) self->nodes.num_rows)) {
        ret = tsk_trace_error(TSK_ERR_NODE_OUT_OF_BOUNDS);
        goto out;
    }
    *out = self->nodes.time[u];
out:
    return ret;
}

static int
control_can_fail(int x)
{
    int ret = 0;
    if (x > 3) {
        ret = tsk_trace_error(TSK_ERR_NODE_OUT_OF_BOUNDS);
    }
    return ret;
}

/* errprop: first result overwritten before it is tested */
int
control_dropped_error(int a, int b)
{
    int ret = 0;
    ret = control_can_fail(a);
    ret = control_can_fail(b);
    if (ret != 0) {
        goto out;
    }
out:
    return ret;
}

/* errprop: both results tested (negative control) */
int
control_checked_error(int a, int b)
{
    int ret = 0;
    ret = control_can_fail(a);
    if (ret != 0) {
        goto out;
    }
    ret = control_can_fail(b);
out:
    return ret;
}

/* bounded writes: second store happens after s++ with no new bound */
int
control_unbounded_store(char *buffer, size_t buffer_size)
{
    int ret = 0;
    size_t s = 0;
    if (s >= buffer_size) {
        ret = tsk_trace_error(TSK_ERR_BUFFER_OVERFLOW);
        goto out;
    }
    buffer[s] = 'a';
    s++;
    buffer[s] = 'b';
out:
    return ret;
}

/* range_guarded: only the upper bound is tested before the index use */
double
control_half_guarded(tsk_table_collection_t *self, long v)
{
    if (v >= (long) self->nodes.num_rows) {
        return -1;
    }
    return self->nodes.time[(tsk_id_t) v];
}
