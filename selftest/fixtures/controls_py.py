"""Positive controls for the Python slip lints (never imported or run; parsed by sa/controls.py on thorough runs)."""


def late_binding(items):
    out = []
    for x in items:
        out.append(lambda: x + 1)
    return out


def early_binding(items):
    out = []
    for x in items:
        out.append(lambda x=x: x + 1)
    return out


def mutable_default(row, acc=[]):
    acc.append(row)
    return acc


def swallowed(f):
    try:
        f()
    except Exception:
        pass


def iterator_reuse(rows):
    cells = (r.strip() for r in rows)
    widths = [len(c) for c in cells]
    return widths, list(cells)


def iterator_once(rows):
    cells = [r.strip() for r in rows]
    widths = [len(c) for c in cells]
    return widths, list(cells)


def or_default(ts, start=None):
    start = start or ts.first
    return start


def none_default(ts, start=None):
    start = ts.first if start is None else start
    return start


def unused_loop_variable(tree, nodes):
    total = 0
    for u in nodes:
        for v in tree.children(u):
            total += tree.time(u)
    return total


def where_tuple(a):
    idx = np.where(a > 0)
    return len(idx)


def where_array(a):
    idx = np.where(a > 0)[0]
    return len(idx)


def inplace_view(ts, offset):
    left = ts.edges_left
    left -= offset
    return left


def inplace_copy(ts, offset):
    left = ts.edges_left.copy()
    left -= offset
    return left


def inplace_param(mask, i):
    mask[i] = False
    return mask


def tree_reuse(ts):
    return list(ts.trees())


def tree_copy(ts):
    return [t.copy() for t in ts.trees()]


def set_order(labels):
    return [x for x in set(labels)]


def sorted_set(labels):
    return [x for x in sorted(set(labels))]


def or_falsy_literal(ts, start=None):
    start = start or 0
    return start + ts.first


def repeat_loop(n):
    out = []
    for i in range(n):
        out.append(0)
    return out


def set_sum(labels):
    return sum(x for x in set(labels))


def _fill_buffer(out, i):
    out[i] = 0
