"""Positive controls for the Python slip lints (never imported or run; parsed by sa/controls.py on thorough runs)."""


def late_binding(items):
    out = []
    for x in items:
        out.append(lambda: x + 1)
    return out


def early_binding(items):
    out = []
    for x in items:
        out.append(lambda x=x: x + 1)
    return out


def mutable_default(row, acc=[]):
    acc.append(row)
    return acc


def swallowed(f):
    try:
        f()
    except Exception:
        pass


def iterator_reuse(rows):
    cells = (r.strip() for r in rows)
    widths = [len(c) for c in cells]
    return widths, list(cells)


def iterator_once(rows):
    cells = [r.strip() for r in rows]
    widths = [len(c) for c in cells]
    return widths, list(cells)
