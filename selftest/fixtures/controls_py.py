"""Positive controls for the Python slip lints (never imported or run; parsed by sa/controls.py on thorough runs)."""


def late_binding(items):
    out = []
    for x in items:
        out.append(lambda: x + 1)
    return out


def early_binding(items):
    out = []
    for x in items:
        out.append(lambda x=x: x + 1)
    return out


def mutable_default(row, acc=[]):
    acc.append(row)
    return acc


def swallowed(f):
    try:
        f()
    except Exception:
        pass


def iterator_reuse(rows):
    cells = (r.strip() for r in rows)
    widths = [len(c) for c in cells]
    return widths, list(cells)


def iterator_once(rows):
    cells = [r.strip() for r in rows]
    widths = [len(c) for c in cells]
    return widths, list(cells)


def or_default(ts, start=None):
    start = start or ts.first
    return start


def none_default(ts, start=None):
    start = ts.first if start is None else start
    return start


def unused_loop_variable(tree, nodes):
    total = 0
    for u in nodes:
        for v in tree.children(u):
            total += tree.time(u)
    return total


def where_tuple(a):
    idx = np.where(a > 0)
    return len(idx)


def where_array(a):
    idx = np.where(a > 0)[0]
    return len(idx)


def inplace_view(ts, offset):
    left = ts.edges_left
    left -= offset
    return left


def inplace_copy(ts, offset):
    left = ts.edges_left.copy()
    left -= offset
    return left


def inplace_param(mask, i):
    mask[i] = False
    return mask


def tree_reuse(ts):
    return list(ts.trees())


def tree_copy(ts):
    return [t.copy() for t in ts.trees()]


def set_order(labels):
    return [x for x in set(labels)]


def sorted_set(labels):
    return [x for x in sorted(set(labels))]


def or_falsy_literal(ts, start=None):
    start = start or 0
    return start + ts.first


def repeat_loop(n):
    out = []
    for i in range(n):
        out.append(0)
    return out


def set_sum(labels):
    return sum(x for x in set(labels))


def _fill_buffer(out, i):
    out[i] = 0


def set_order_local(ids):
    found = set(ids)
    found = list(found)
    return found


def argmax_mask(positions, site_mask):
    return positions[np.argmax(~site_mask)]


def argmax_mask_guarded(positions, site_mask):
    if np.any(~site_mask):
        return positions[np.argmax(~site_mask)]
    return None


def implicit_none(path, local_file):
    try:
        return open(path)
    except OSError as e:
        if local_file:
            raise ValueError(str(e))


def explicit_raise(path, local_file):
    try:
        return open(path)
    except OSError as e:
        if local_file:
            raise ValueError(str(e))
        raise


def param_override(edges, sequence_length=0):
    if len(edges) > 0:
        sequence_length = max(sequence_length, edges.right.max())
    return sequence_length


def param_default_filled(edges, sequence_length=0):
    if sequence_length == 0 and len(edges) > 0:
        sequence_length = edges.right.max()
    return sequence_length


def raw_index(tree, u):
    parent = tree._parent_array
    return parent[u]


def raw_index_checked(tree, u):
    parent = tree._parent_array
    if u < 0 or u >= len(parent):
        raise ValueError("out of bounds")
    return parent[u]


def try_multi(header):
    a = b = None
    try:
        a = header.index("location")
        b = header.index("parents")
    except ValueError:
        pass
    return a, b


def try_single(header):
    a = b = None
    try:
        a = header.index("location")
    except ValueError:
        pass
    try:
        b = header.index("parents")
    except ValueError:
        pass
    return a, b


def zip_domain(ts):
    unknown = np.isnan(ts.mutations_time)
    out = []
    for site in ts.sites():
        for mutation, flag in zip(site.mutations, unknown):
            out.append((mutation, flag))
    return out


def zip_same_table(ts):
    return list(zip(ts.mutations_time, ts.mutations_node))


class Seq:
    def __eq__(self, other):
        return all(a == b for a, b in zip(self, other))


class Seq2:
    def __eq__(self, other):
        return len(self) == len(other) and all(a == b for a, b in zip(self, other))


def or_none(schema):
    return repr(schema) or None


def alloc_domain(ts):
    in_set = np.zeros(ts.num_nodes, dtype=bool)
    in_set[ts.samples()[0]] = True
    return in_set[: ts.num_samples]


def alloc_domain_indexed(ts):
    in_set = np.zeros(ts.num_nodes, dtype=bool)
    in_set[ts.samples()[0]] = True
    return in_set[ts.samples()]


def fold_dropped(tree, args):
    mrca = args[0]
    for node in args[1:]:
        mrca = tree.get_mrca(args[0], node)
    return mrca


def fold_kept(tree, args):
    mrca = args[0]
    for node in args[1:]:
        mrca = tree.get_mrca(mrca, node)
    return mrca


def uint_arith(sample_set_sizes, flattened):
    n = sample_set_sizes
    return 2 * (n**2 + n + 3) / (9 * n * (n - 1))


def uint_arith_converted(sample_set_sizes, flattened):
    n = np.array(sample_set_sizes, dtype=np.float64)
    return 2 * (n**2 + n + 3) / (9 * n * (n - 1))


def stale_buffer(variants, missing):
    table = np.full(0, missing)
    out = []
    for var in variants:
        if len(table) != len(var.alleles):
            table = np.full(len(var.alleles), missing)
        for i, allele in enumerate(var.alleles):
            if allele is not None:
                table[i] = ord(allele)
        out.append(table[var.genotypes])
    return out


def fresh_buffer(variants, missing):
    out = []
    for var in variants:
        table = np.full(len(var.alleles), missing)
        for i, allele in enumerate(var.alleles):
            if allele is not None:
                table[i] = ord(allele)
        out.append(table[var.genotypes])
    return out


def assert_same(self, other, ignore_provenance=False):
    if self.equals(other, ignore_provenance=ignore_provenance):
        return
    if not ignore_provenance:
        self.provenances.assert_equals(other.provenances)
        raise AssertionError("differ in an undetected way")


def assert_same_raises(self, other, ignore_provenance=False):
    if self.equals(other, ignore_provenance=ignore_provenance):
        return
    if not ignore_provenance:
        self.provenances.assert_equals(other.provenances)
    raise AssertionError("differ in an undetected way")


def unsafe_int_cast(self, nodes):
    nodes = np.array(nodes, dtype=np.int32)
    return self._ll_tables.subset(nodes)


def safe_int_cast(self, nodes):
    nodes = util.safe_np_int_cast(nodes, np.int32)
    return self._ll_tables.subset(nodes)


class Cache:
    def cache_escape(self):
        if self._pairs is None:
            self._pairs = self._ll.get_keys()
        return self._pairs

    def cache_frozen(self):
        if self._pairs is None:
            self._pairs = self._ll.get_keys()
            self._pairs.flags.writeable = False
        return self._pairs


def return_before_check(self, index):
    if index.all():
        return self.copy()
    if len(index) != len(self):
        raise IndexError("Boolean index must be same length as table")
    return self.take(index)


def check_before_return(self, index):
    if len(index) != len(self):
        raise IndexError("Boolean index must be same length as table")
    if index.all():
        return self.copy()
    return self.take(index)


def aggregate_length(var, site_id):
    num_alleles = var.num_alleles
    allele_string = "".join(var.alleles[:num_alleles])
    if len(allele_string) != num_alleles:
        raise TypeError(f"Multi-letter allele or deletion detected at site {site_id}")
    return allele_string.encode("ascii")


def each_length(var, site_id):
    if not all(len(a) == 1 for a in var.alleles[: var.num_alleles]):
        raise TypeError(f"Multi-letter allele or deletion detected at site {site_id}")
    return "".join(var.alleles[: var.num_alleles]).encode("ascii")


class Stat:
    def specified_path(self, windows=None, num_threads=0, mode="site"):
        windows_specified = windows is not None
        windows = self.parse_windows(windows)
        if windows_specified and len(windows) > 2:
            D = self._by_window(windows, num_threads, mode=mode)
        else:
            D = self._by_tree(num_threads, mode=mode)
        return D

    def specified_exact(self, windows=None, num_threads=0, mode="site"):
        windows_specified = windows is not None
        windows = self.parse_windows(windows)
        if windows_specified:
            D = self._by_window(windows, num_threads, mode=mode)
        else:
            D = self._by_tree(num_threads, mode=mode)
        return D


def subtree_root(tree, root, labels, NULL=-1):
    out = {}
    for node in tree.nodes(root, order="postorder"):
        s = labels.get(node, "")
        parent = tree.parent(node)
        if parent != NULL:
            s += ":%f" % tree.branch_length(node)
        out[node] = s
    return out


def subtree_root_compared(tree, root, labels):
    out = {}
    for node in tree.nodes(root, order="postorder"):
        s = labels.get(node, "")
        if node != root:
            s += ":%f" % tree.branch_length(node)
        out[node] = s
    return out
