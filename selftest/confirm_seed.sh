#!/bin/bash
# usage: confirm_seed.sh <seed-dir> [worktree]
# Confirms a seeded change in a scratch worktree of /repo HEAD: demo passes on clean build,
# fails with the patch.  Prints CONFIRMED / NOT-CONFIRMED.  Leaves the worktree clean.
set -u
SEED="$1"; WT="${2:-/tmp/wt/confirm}"
if [ ! -d "$WT" ]; then git -C /repo worktree add -q --detach "$WT" HEAD || exit 2; fi
git -C "$WT" checkout -q -- . ; git -C "$WT" checkout -q --detach "$(git -C /repo rev-parse HEAD)" || exit 2
build() { (cd "$WT/python" && /venv/bin/python setup.py build_ext --inplace --force >$WT/.confirm_build.log 2>&1) || { echo "BUILD-FAILED"; tail -5 $WT/.confirm_build.log; return 1; }; }
needs_c=0; grep -q '^+++ b/\(c/\|python/_tskitmodule.c\|python/lwt_interface/\)' "$SEED/patch.diff" && needs_c=1
if [ ! -f "$WT/python/_tskit.cpython-312-x86_64-linux-gnu.so" ] || [ -f "$WT/.dirty_build" ]; then build || exit 2; rm -f "$WT/.dirty_build"; fi
(cd "$WT/python" && timeout 600 /venv/bin/python "$SEED/demo.py" >$WT/.confirm_clean.log 2>&1); clean=$?
git -C "$WT" apply "$SEED/patch.diff" || { echo "NOT-CONFIRMED patch does not apply to HEAD"; exit 1; }
if [ $needs_c = 1 ]; then touch "$WT/.dirty_build"; build || { git -C "$WT" checkout -q -- .; exit 1; }; fi
(cd "$WT/python" && timeout 600 /venv/bin/python "$SEED/demo.py" >$WT/.confirm_mut.log 2>&1); mut=$?
git -C "$WT" checkout -q -- .
if [ $needs_c = 1 ]; then build; rm -f "$WT/.dirty_build"; fi
if [ $clean = 0 ] && [ $mut != 0 ]; then echo "CONFIRMED clean=$clean mutated=$mut"; exit 0; fi
echo "NOT-CONFIRMED clean=$clean mutated=$mut"; tail -3 $WT/.confirm_clean.log; tail -3 $WT/.confirm_mut.log; exit 1
