#!/venv/bin/python
"""Run the registered checks against every seeded change under /verif/seeded/.

For each seed: apply patch.diff to a scratch worktree of /repo HEAD (never to /repo), run
`./check <prop>` for the seed's property (and optionally all properties) with VERIF_REPO
pointing at the worktree, record which checks report a violation, undo the patch.
Usage: run_seeded.py [--all-props] [seed-id ...]
"""
import json, os, subprocess, sys, shutil

ROOT = os.path.dirname(os.path.dirname(os.path.abspath(__file__)))
WT = os.environ.get("SEED_WT", "/tmp/wt/seedrun")
CACHE = os.environ.get("SEED_CACHE", "/tmp/vcache_seedrun")
EVID = os.environ.get("SEED_EVIDENCE", "/tmp/seed_evidence")


def sh(*a, **kw):
    return subprocess.run(a, capture_output=True, text=True, **kw)


def main():
    args = [a for a in sys.argv[1:] if not a.startswith("--")]
    allprops = "--all-props" in sys.argv
    head = sh("git", "-C", "/repo", "rev-parse", "HEAD").stdout.strip()
    if not os.path.isdir(WT):
        r = sh("git", "-C", "/repo", "worktree", "add", "-q", "--detach", WT, head)
        if r.returncode:
            print(r.stderr); return 2
    sh("git", "-C", WT, "checkout", "-q", "--", ".")
    sh("git", "-C", WT, "checkout", "-q", "--detach", head)
    manifest = json.load(open(os.path.join(ROOT, "MANIFEST.json")))
    claimed = [c["property_id"] for c in manifest["checks"]]
    seeds = sorted(d for d in os.listdir(os.path.join(ROOT, "seeded")) if os.path.isdir(os.path.join(ROOT, "seeded", d)))
    if args:
        seeds = [s for s in seeds if s in args]
    env = dict(os.environ, VERIF_REPO=WT, VERIF_CACHE=CACHE)
    results = {}
    for s in seeds:
        d = os.path.join(ROOT, "seeded", s)
        meta = json.load(open(os.path.join(d, "meta.json")))
        prop = meta["property"]
        r = sh("git", "-C", WT, "apply", os.path.join(d, "patch.diff"))
        if r.returncode:
            results[s] = {"error": "patch does not apply: " + r.stderr.strip()[:200]}
            print(s, "PATCH-FAILS")
            continue
        props = claimed if allprops else ([prop] if prop in claimed else [])
        hits = {}
        for p in props:
            # evidence must not be clobbered: run in a scratch copy of evidence dir
            rr = subprocess.run([os.path.join(ROOT, "check"), p], capture_output=True, text=True,
                                env=dict(env, VERIF_EVIDENCE_DIR=EVID))
            lines = [l for l in rr.stdout.splitlines() if l.startswith("  violated:") or l.startswith("ANALYSIS-ERROR")]
            hits[p] = {"exit": rr.returncode, "reports": lines[:6]}
        sh("git", "-C", WT, "checkout", "-q", "--", ".")
        caught = [p for p, h in hits.items() if h["exit"] == 1]
        results[s] = {"property": prop, "caught_by": caught, "detail": {p: h for p, h in hits.items() if h["exit"] != 0}}
        fr = os.path.join(d, "first_result.json")
        if not os.path.exists(fr) and not allprops:
            # what the checks said the first time this seed was run (never overwritten afterwards)
            json.dump({"first_result": ("caught (%s)" % ", ".join(sorted({l.split("rule=")[1].split()[0] for l in hits.get(prop, {}).get("reports", []) if "rule=" in l}))
                                        if prop in caught else "missed")}, open(fr, "w"))
        print("%-10s property=%s %s" % (s, prop, ("CAUGHT by " + ",".join(caught)) if caught else
                                        ("MISSED" if prop in claimed else "MISSED (property not claimed)")))
        for p in caught:
            for l in hits[p]["reports"][:3]:
                print("      ", l.strip()[:220])
        for p, h in hits.items():
            if h["exit"] == 2:
                print("       ANALYSIS-ERROR in", p, h["reports"][:1])
    rp = os.environ.get("SEED_RESULTS") or os.path.join(ROOT, "seeded", "RESULTS.json")
    merged = {}
    if os.path.exists(rp) and args:
        merged = json.load(open(rp))
    merged.update(results)
    json.dump(merged, open(rp, "w"), indent=1, sort_keys=True)
    shutil.rmtree(EVID, ignore_errors=True)
    return 0


if __name__ == "__main__":
    sys.exit(main())
