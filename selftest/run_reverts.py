#!/venv/bin/python
"""Regression self-test for the repaired defects: for every `fixed:` entry of known_findings.json, undo that fix commit on a
scratch worktree of /repo HEAD (git apply -R of the commit's own diff) and run the property's check against it.  The check must
report a violation (exit 1): "a fixed entry suppresses nothing ... and reports the violation again if it ever returns".
Usage: run_reverts.py [hash ...]"""
import json, os, re, subprocess, sys

ROOT = os.path.dirname(os.path.dirname(os.path.abspath(__file__)))
WT = os.environ.get("REVERT_WT", "/tmp/wt/revertrun")


def sh(*a, **kw):
    return subprocess.run(a, capture_output=True, text=True, **kw)


def main():
    want = set(sys.argv[1:])
    head = sh("git", "-C", "/repo", "rev-parse", "HEAD").stdout.strip()
    if not os.path.isdir(WT):
        sh("git", "-C", "/repo", "worktree", "add", "-q", "--detach", WT, head)
    sh("git", "-C", WT, "checkout", "-q", "--", ".")
    sh("git", "-C", WT, "checkout", "-q", "--detach", head)
    known = json.load(open(os.path.join(ROOT, "known_findings.json")))
    env = dict(os.environ, VERIF_REPO=WT, VERIF_CACHE="/tmp/vcache_revert", VERIF_EVIDENCE_DIR="/tmp/revert_evidence")
    bad = 0
    out = {}
    for e in known["fixed"]:
        m = re.match(r"fixed: property=(C\d+) ([0-9a-f]{7,})", e)
        if not m:
            continue
        prop, h = m.group(1), m.group(2)
        if want and h not in want:
            continue
        diff = sh("git", "-C", "/repo", "show", "--format=", h).stdout
        r = subprocess.run(["git", "-C", WT, "apply", "-R", "-"], input=diff, capture_output=True, text=True)
        if r.returncode:
            print("%s %s  REVERT-DOES-NOT-APPLY (later fixes changed the same lines)" % (prop, h))
            out[h] = "revert does not apply"
            continue
        rr = subprocess.run([os.path.join(ROOT, "check"), prop], capture_output=True, text=True, env=env)
        lines = [l.strip() for l in rr.stdout.splitlines() if l.startswith("  violated:")]
        sh("git", "-C", WT, "checkout", "-q", "--", ".")
        ok = rr.returncode == 1
        bad += not ok
        out[h] = {"property": prop, "reported": ok, "by": sorted({l.split("rule=")[1].split()[0] for l in lines})}
        print("%s %s  %s  %s" % (prop, h, "REPORTED" if ok else "NOT-REPORTED (exit %d)" % rr.returncode, ", ".join(out[h]["by"])))
    rp = os.path.join(ROOT, "selftest", "REVERTS.json")
    if want and os.path.exists(rp):         # a partial run updates the recorded results
        old = json.load(open(rp)); old.update(out); out = old
    json.dump(out, open(rp, "w"), indent=1, sort_keys=True)
    return 1 if bad else 0


if __name__ == "__main__":
    sys.exit(main())
