#!/venv/bin/python
"""import_seed.py <src-dir> <seed-id>: copy a confirmed seeded change into /verif/seeded/<seed-id>/."""
import json, os, shutil, sys, subprocess
src, sid = sys.argv[1], sys.argv[2]
dst = os.path.join("/verif/seeded", sid)
os.makedirs(dst, exist_ok=True)
for f in ("patch.diff", "demo.py"):
    shutil.copy(os.path.join(src, f), os.path.join(dst, f))
m = json.load(open(os.path.join(src, "meta.json")))
head = subprocess.run(["git", "-C", "/repo", "rev-parse", "--short", "HEAD"], capture_output=True, text=True).stdout.strip()
meta = {"id": sid, "property": m["property"], "summary": m.get("summary", ""), "needs": m.get("needs", ""),
        "author_tests_run": m.get("tests_run", ""),
        "confirmed": "selftest/confirm_seed.sh in a scratch worktree of /repo %s: built the extension, demo.py exit 0 on the clean build; "
                     "applied patch.diff, rebuilt, demo.py exit non-zero; worktree restored" % head,
        "origin": "fresh sub-agent given only the property text and its own scratch worktree"}
json.dump(meta, open(os.path.join(dst, "meta.json"), "w"), indent=1)
print("imported", sid)
